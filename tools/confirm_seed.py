#!/usr/bin/env python3
"""confirm_seed.py <seed_out_dir> [--demo-name demo_seed]
Independently confirms a seeded change: on a scratch copy of /repo (under /var/tmp, removed afterwards)
 1. the demonstration passes on the unmodified code,
 2. with patch.diff applied the workspace's own test suite still passes (110 tests),
 3. with patch.diff applied the demonstration fails.
Prints a JSON summary."""
import json, os, shutil, subprocess, sys, tempfile, time


def touch_all(root):
    """cargo's freshness check is mtime based and its unit hashes are workspace-relative: a scratch copy that
    shares a target dir with an earlier (differently patched) copy must look newer than every cached artifact"""
    now = time.time()
    for d, _, fs in os.walk(root):
        for f in fs:
            if f.endswith((".rs", ".toml")):
                os.utime(os.path.join(d, f), (now, now))

out = os.path.abspath(sys.argv[1])
verif = os.path.dirname(os.path.dirname(os.path.abspath(__file__)))
scratch = tempfile.mkdtemp(prefix="svgbob-seed-", dir="/var/tmp")
env = dict(os.environ, CARGO_TARGET_DIR=os.path.join(verif, ".work", "target-test"), CARGO_NET_OFFLINE="true")
res = {}
try:
    for item in ("Cargo.toml", "Cargo.lock", "crates"):
        src = os.path.join("/repo", item); dst = os.path.join(scratch, item)
        shutil.copytree(src, dst, ignore=shutil.ignore_patterns("target")) if os.path.isdir(src) else shutil.copy2(src, dst)
    touch_all(scratch)
    demo_rs = os.path.join(out, "demo.rs")
    demo_sh = os.path.join(out, "demo.sh")
    def run_demo():
        if os.path.exists(demo_rs):
            shutil.copy(demo_rs, os.path.join(scratch, "crates/svgbob/tests/zz_seed_demo.rs"))
            r = subprocess.run(["cargo", "test", "-p", "svgbob", "--offline", "--test", "zz_seed_demo"], cwd=scratch, env=env, capture_output=True, text=True)
            os.remove(os.path.join(scratch, "crates/svgbob/tests/zz_seed_demo.rs"))
            tail = [l for l in r.stdout.splitlines() if l.startswith("test ") or l.startswith("test result")]
            return r.returncode, tail[-6:], r.stderr[-600:] if r.returncode and not tail else ""
        r = subprocess.run(["sh", demo_sh, scratch], cwd=scratch, env=env, capture_output=True, text=True)
        return r.returncode, r.stdout.splitlines()[-6:], r.stderr[-400:]
    rc, tail, err = run_demo()
    res["demo_on_unmodified"] = {"rc": rc, "tail": tail, "err": err}
    r = subprocess.run(["git", "apply", "--unsafe-paths", "--directory=" + scratch, os.path.join(out, "patch.diff")], cwd="/", capture_output=True, text=True)
    if r.returncode != 0:
        r = subprocess.run(["patch", "-p1", "-s", "-i", os.path.join(out, "patch.diff")], cwd=scratch, capture_output=True, text=True)
    res["patch_applies"] = r.returncode == 0
    if r.returncode != 0:
        res["patch_err"] = (r.stdout + r.stderr)[-400:]
    else:
        touch_all(scratch)
        r = subprocess.run(["cargo", "test", "--workspace", "--offline", "--no-fail-fast"], cwd=scratch, env=env, capture_output=True, text=True)
        results = [l for l in r.stdout.splitlines() if l.startswith("test result")]
        passed = sum(int(l.split("ok. ")[1].split(" passed")[0]) for l in results if "ok. " in l)
        res["suite_with_patch"] = {"rc": r.returncode, "passed": passed, "failed_lines": [l for l in r.stdout.splitlines() if l.endswith("FAILED")][:5],
                                   "err": r.stderr[-500:] if r.returncode else ""}
        rc, tail, err = run_demo()
        res["demo_with_patch"] = {"rc": rc, "tail": tail, "err": err}
    res["confirmed"] = bool(res.get("patch_applies") and res["demo_on_unmodified"]["rc"] == 0 and res.get("suite_with_patch", {}).get("rc") == 0 and
                            res.get("suite_with_patch", {}).get("passed", 0) >= 110 and res.get("demo_with_patch", {}).get("rc", 0) != 0)
finally:
    shutil.rmtree(scratch, ignore_errors=True)
print(json.dumps(res, indent=1))
