#!/usr/bin/env python3
"""recheck_seeds.py [seed ids...] — re-run the checks recorded for each kept seed against a scratch copy with its
patch applied and update meta.json (`checks`, `caught_by`); the first verdict is preserved as `first_verdict`."""
import glob, json, os, subprocess, sys
V = os.path.dirname(os.path.dirname(os.path.abspath(__file__)))
want = sys.argv[1:]
for d in sorted(glob.glob(os.path.join(V, "seeded", "*"))):
    name = os.path.basename(d)
    if want and name not in want:
        continue
    mp = os.path.join(d, "meta.json")
    m = json.load(open(mp))
    if "first_verdict" not in m:
        m["first_verdict"] = {"caught_by": m.get("caught_by", []), "checks": {p: c.get("rc") for p, c in m.get("checks", {}).items()}}
    props = list(m.get("checks", {}).keys()) or [m["property"]]
    if subprocess.run(["git", "-C", os.environ.get("VERIF_REPO", "/repo"), "apply", "--check", os.path.join(d, "patch.diff")], capture_output=True).returncode != 0:
        print(name, "DOES-NOT-APPLY to the current tree (rebase the patch; meta.json left unchanged)")
        continue
    checks = {}
    for p in props:
        rr = subprocess.run([os.path.join(V, "tools/runmutant.py"), os.path.join(d, "patch.diff"), p], capture_output=True, text=True)
        lines = [l.strip() for l in rr.stdout.splitlines() if l.strip().startswith(p + ".")]
        checks[p] = {"rc": rr.returncode, "reported": [l[:300] for l in lines[:6]]}
    m["checks"] = checks
    m["caught_by"] = [p for p in props if checks[p]["rc"] == 1]
    m["expect_caught"] = bool(m["caught_by"])
    json.dump(m, open(mp, "w"), indent=1)
    print(name, "first:", m["first_verdict"]["caught_by"] or "missed", "now:", m["caught_by"] or "MISSED")
